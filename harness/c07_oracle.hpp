// c07_oracle.hpp — independent reference for FlexPath outlines (property C07).  No gdstk code.
//
// The oracle builds, for ONE path element, the centre line from the documented definition
//   * every spine segment displaced along its own left normal by the offsets of its two end points,
//   * consecutive displaced segments joined at the intersection of their lines,
//   * a circular bend (when it fits) = the arc tangent to both displaced segments whose radius is the
//     requested spine radius seen from the displaced line (r - dir*offset: the spine arc of radius r
//     displaced sideways by the offset),
// and turns it into two families of convex "regions":
//   lower regions  -> MUST-COVER  : a sample inside one of them (lateral guard g) has to be covered,
//   upper regions  -> MUST-NOT    : a sample farther than g from all of them must not be covered.
// Regions that depend on the end style carry a bit mask of the end variants they belong to; corner
// discs carry one radius per join type (the join's reach).  Everything else is "don't care".
//
// Where the statement leaves the local half width open (taper across a fitted bend, taper at an end
// that is shortened by a negative extension) the lower regions use the smaller and the upper regions
// the larger of the admissible linear interpolations, so neither reading is ever demanded.
#pragma once
#include <math.h>
#include <stdint.h>

#include <algorithm>
#include <string>
#include <vector>

namespace c07 {

struct V {
    double x, y;
};
inline V operator+(V a, V b) { return {a.x + b.x, a.y + b.y}; }
inline V operator-(V a, V b) { return {a.x - b.x, a.y - b.y}; }
inline V operator*(V a, double s) { return {a.x * s, a.y * s}; }
inline double dot(V a, V b) { return a.x * b.x + a.y * b.y; }
inline double cross(V a, V b) { return a.x * b.y - a.y * b.x; }
inline double norm(V a) { return sqrt(dot(a, a)); }
inline V unit(V a) {
    double l = norm(a);
    return l > 0 ? V{a.x / l, a.y / l} : V{0, 0};
}
inline V left(V a) { return {-a.y, a.x}; }
inline double lerp(double a, double b, double t) { return a + (b - a) * t; }
inline double dist_seg(V a, V b, V q) {
    V d = b - a;
    double l2 = dot(d, d);
    double t = l2 > 0 ? dot(q - a, d) / l2 : 0;
    t = t < 0 ? 0 : t > 1 ? 1 : t;
    return norm(a + d * t - q);
}

enum Join { J_NATURAL = 0, J_MITER, J_BEVEL, J_ROUND, NJ };
static const char* const JOIN_NAME[NJ] = {"natural", "miter", "bevel", "round"};

// one end-style variant: for each end either a straight extension (0 = flush, >0 rectangle,
// <0 the path is cut short) or a half disc
struct EndVar {
    bool s_round, e_round;
    double s_ext, e_ext;
};

struct ElementInput {
    std::vector<V> spine;
    std::vector<double> hw, off;  // one per spine point
    double bend_r = 0;            // 0: no bends
    std::vector<EndVar> ends;     // at most 8 variants
    bool raw = false;             // true: no non-degeneracy predicate (outlining a PATH record)
};

enum Status { OK = 0, DROP_PREDICATE, DROP_PREDICATE_SUM, DROP_INVERTED, DROP_AMBIGUOUS_FIT, DROP_BEND_BUDGET, DROP_SHORT_END, NSTATUS };
static const char* const STATUS_NAME[NSTATUS] = {"ok", "degenerate:corner-predicate", "degenerate:two-corners-or-corner-and-bend-on-one-segment", "degenerate:centre-line-inverted",
                                                 "ambiguous:bend-fit-at-threshold", "unused:bend-blocked-by-previous-bend", "degenerate:negative-extension-longer-than-first-piece"};

struct Corner {
    V p;
    double hw = 0, phi = 0;  // half width at the corner, signed turn angle (left positive)
    bool bend = false;
    // bend data
    int dir = 1;
    V cc, as, ae, u0, u1;
    double R = 0, T = 0, hlo = 0, hhi = 0, s_lo = 0, s_hi = 0, e_lo = 0, e_hi = 0;
    // join data
    double reach[NJ] = {0, 0, 0, 0};
    V r1, r2;
};

struct Region {
    enum Kind { POLY, DISC, SECTOR, HALFDISC } kind = POLY;
    unsigned mask = 0xff;  // end variants this region belongs to
    bool lower = true, upper = true;
    const char* name = "";
    // POLY (convex, counter-clockwise): lo for must-cover, hi for must-not
    int nv = 0;
    V lo[4], hi[4];
    bool guard[4] = {false, false, false, false};
    // DISC / HALFDISC
    V c;
    double rad[NJ] = {0, 0, 0, 0};  // DISC: per join;  HALFDISC: rad[0]
    V outward;
    // SECTOR
    double R = 0, hlo = 0, hhi = 0;
    V u0, u1;
    int dir = 1;
    // bounding box of the upper/lower extent (pre-filter)
    double bx0, by0, bx1, by1;
};

struct Oracle {
    Status status = OK;
    int n = 0;
    std::vector<V> C, tau;
    std::vector<double> L, remaining;
    std::vector<Corner> corner;  // index = spine point index (1..n-2 used)
    std::vector<Region> regions;
    bool any_turn = false, any_bend = false;
    bool bends_compete = false;  // some bend fits alone but not after the previous fitted bend took its tangent length
    unsigned valid_ends = 0;  // end variants that are usable
    double bx0 = 1e300, by0 = 1e300, bx1 = -1e300, by1 = -1e300;
};

inline void fix_ccw(Region& r) {
    double a = 0;
    for (int i = 0; i < r.nv; i++) a += cross(r.hi[i], r.hi[(i + 1) % r.nv]);
    if (a >= 0) return;
    // reverse vertex order; edge i (v[i]->v[i+1]) becomes edge nv-2-i in the reversed list
    V lo[4], hi[4];
    bool g[4];
    for (int i = 0; i < r.nv; i++) { lo[i] = r.lo[r.nv - 1 - i]; hi[i] = r.hi[r.nv - 1 - i]; }
    for (int i = 0; i < r.nv; i++) g[i] = r.guard[(2 * r.nv - 2 - i) % r.nv];
    for (int i = 0; i < r.nv; i++) { r.lo[i] = lo[i]; r.hi[i] = hi[i]; r.guard[i] = g[i]; }
}
inline void set_bbox(Region& r) {
    r.bx0 = r.by0 = 1e300;
    r.bx1 = r.by1 = -1e300;
    auto add = [&](V p, double e) {
        r.bx0 = std::min(r.bx0, p.x - e); r.by0 = std::min(r.by0, p.y - e);
        r.bx1 = std::max(r.bx1, p.x + e); r.by1 = std::max(r.by1, p.y + e);
    };
    switch (r.kind) {
        case Region::POLY:
            for (int i = 0; i < r.nv; i++) { add(r.hi[i], 0); add(r.lo[i], 0); }
            break;
        case Region::DISC: {
            double m = 0;
            for (int j = 0; j < NJ; j++) m = std::max(m, r.rad[j]);
            add(r.c, m);
        } break;
        case Region::HALFDISC: add(r.c, r.rad[0]); break;
        case Region::SECTOR: add(r.c, r.R + r.hhi); break;
    }
}

// trapezoid around the straight piece a->b; (ha,hb) half widths, lower and upper reading
inline Region trapezoid(V a, V b, double ha_lo, double ha_hi, double hb_lo, double hb_hi, bool guard_a, bool guard_b, unsigned mask, const char* name) {
    Region r;
    r.kind = Region::POLY;
    r.nv = 4;
    r.mask = mask;
    r.name = name;
    V t = unit(b - a), n = left(t);
    r.lo[0] = a - n * ha_lo; r.lo[1] = b - n * hb_lo; r.lo[2] = b + n * hb_lo; r.lo[3] = a + n * ha_lo;
    r.hi[0] = a - n * ha_hi; r.hi[1] = b - n * hb_hi; r.hi[2] = b + n * hb_hi; r.hi[3] = a + n * ha_hi;
    r.guard[0] = true; r.guard[1] = guard_b; r.guard[2] = true; r.guard[3] = guard_a;
    set_bbox(r);
    return r;
}

// Build the centre line and all regions.  g is only needed for nothing here (regions are exact);
// the guard band is applied at evaluation time.
inline Oracle build(const ElementInput& in) {
    Oracle o;
    const int n = (int)in.spine.size();
    o.n = n;
    const std::vector<V>& P = in.spine;
    std::vector<V> A(n - 1), B(n - 1);
    std::vector<double> sl(n - 1);
    o.tau.resize(n - 1);
    for (int k = 0; k + 1 < n; k++) {
        V d = P[k + 1] - P[k];
        sl[k] = norm(d);
        V nu = left(unit(d));
        A[k] = P[k] + nu * in.off[k];
        B[k] = P[k + 1] + nu * in.off[k + 1];
        o.tau[k] = unit(B[k] - A[k]);
    }
    o.C.resize(n);
    o.C[0] = A[0];
    o.C[n - 1] = B[n - 2];
    for (int i = 1; i + 1 < n; i++) {
        double den = cross(o.tau[i - 1], o.tau[i]);
        if (fabs(den) < 1e-9) o.C[i] = (B[i - 1] + A[i]) * 0.5;
        else o.C[i] = A[i - 1] + o.tau[i - 1] * (cross(A[i] - A[i - 1], o.tau[i]) / den);
    }
    o.L.resize(n - 1);
    for (int k = 0; k + 1 < n; k++) {
        o.L[k] = dot(o.C[k + 1] - o.C[k], o.tau[k]);
        if (!in.raw && o.L[k] <= 0.5) { o.status = DROP_INVERTED; return o; }
    }
    o.corner.resize(n);
    const double MAX_TURN = 143.0 * M_PI / 180.0;
    for (int i = 1; i + 1 < n; i++) {
        Corner& c = o.corner[i];
        c.p = o.C[i];
        c.hw = in.hw[i];
        c.phi = atan2(cross(o.tau[i - 1], o.tau[i]), dot(o.tau[i - 1], o.tau[i]));
        if (fabs(c.phi) > 1e-9) o.any_turn = true;
        if (!in.raw) {
            if (fabs(c.phi) > MAX_TURN) { o.status = DROP_PREDICATE; return o; }
            // DESIGN predicate: (|offset| + hw)/tan(theta/2) <= min(adjacent spine lengths) - 1/2, 1/tan(theta/2) = tan(|phi|/2)
            if ((fabs(in.off[i]) + c.hw) * tan(fabs(c.phi) / 2) > std::min(sl[i - 1], sl[i]) - 0.5 + 1e-12) { o.status = DROP_PREDICATE; return o; }
        }
    }
    if (!in.raw)
        for (int k = 0; k + 1 < n; k++) {
            double cs = k >= 1 ? in.hw[k] * tan(fabs(o.corner[k].phi) / 2) : 0;
            double ce = k + 1 <= n - 2 ? in.hw[k + 1] * tan(fabs(o.corner[k + 1].phi) / 2) : 0;
            if (cs + ce > o.L[k] - 0.5 + 1e-12) { o.status = DROP_PREDICATE_SUM; return o; }
        }
    // ---- bends
    o.remaining = o.L;
    if (in.bend_r > 0)
        for (int i = 1; i + 1 < n; i++) {
            Corner& c = o.corner[i];
            c.dir = cross(o.tau[i - 1], o.tau[i]) < 0 ? -1 : 1;
            double R = in.bend_r - c.dir * in.off[i];
            double T = R * tan(fabs(c.phi) / 2);
            bool fits = R > c.hw && T <= o.remaining[i - 1] && T <= o.remaining[i];
            if (fabs(R - c.hw) < 1e-9 || (R > c.hw && (fabs(T - o.remaining[i - 1]) < 1e-7 || fabs(T - o.remaining[i]) < 1e-7))) { o.status = DROP_AMBIGUOUS_FIT; return o; }
            // Documented rule (to_polygons and element_center agree): bends are placed in path order and the tangent
            // length used by a fitted bend is no longer available to the next one (len_next -= len_required).  A
            // bend that would fit on the un-bent segment but not on what the previous bend left over does NOT fit.
            if (!fits && R > c.hw && T <= o.L[i - 1] && T <= o.L[i] && T > o.remaining[i - 1]) o.bends_compete = true;
            if (!fits) continue;
            c.bend = true;
            o.any_bend = true;
            c.R = R;
            c.T = T;
            o.remaining[i - 1] -= T;
            o.remaining[i] -= T;
            V n0 = left(o.tau[i - 1]), n1 = left(o.tau[i]);
            c.as = c.p - o.tau[i - 1] * T;
            c.ae = c.p + o.tau[i] * T;
            c.cc = c.as + n0 * (c.dir * R);
            c.u0 = n0 * (double)(-c.dir);
            c.u1 = n1 * (double)(-c.dir);
            // half width at the two arc ends: gdstk keeps hw[i] along the whole arc; the other admissible
            // reading interpolates along the un-bent centre line from corner to corner
            double alt_s = lerp(in.hw[i - 1], in.hw[i], (o.L[i - 1] - T) / o.L[i - 1]);
            double alt_e = lerp(in.hw[i], in.hw[i + 1], T / o.L[i]);
            c.s_lo = std::min(c.hw, alt_s); c.s_hi = std::max(c.hw, alt_s);
            c.e_lo = std::min(c.hw, alt_e); c.e_hi = std::max(c.hw, alt_e);
            c.hlo = std::min(c.s_lo, c.e_lo); c.hhi = std::max(c.s_hi, c.e_hi);
        }
    // a fitted bend next to an unbent corner: the corner's inner side must not run into the arc
    if (!in.raw)
        for (int k = 0; k + 1 < n; k++) {
            bool cs_c = k >= 1, ce_c = k + 1 <= n - 2;
            bool bs = cs_c && o.corner[k].bend, be = ce_c && o.corner[k + 1].bend;
            if (bs == be) continue;  // two bends: the fit rule; no bend: checked above
            double cs = cs_c ? (bs ? o.corner[k].T : in.hw[k] * tan(fabs(o.corner[k].phi) / 2)) : 0;
            double ce = ce_c ? (be ? o.corner[k + 1].T : in.hw[k + 1] * tan(fabs(o.corner[k + 1].phi) / 2)) : 0;
            if (cs + ce > o.L[k] - 0.5 + 1e-12) { o.status = DROP_PREDICATE_SUM; return o; }
        }
    // ---- nodes of the straight pieces
    struct Node { V p; double lo, hi; };
    std::vector<Node> ns(n - 1), ne(n - 1);
    for (int k = 0; k + 1 < n; k++) {
        if (k == 0) ns[k] = {o.C[0], in.hw[0], in.hw[0]};
        else if (o.corner[k].bend) ns[k] = {o.corner[k].ae, o.corner[k].e_lo, o.corner[k].e_hi};
        else ns[k] = {o.C[k], in.hw[k], in.hw[k]};
        if (k == n - 2) ne[k] = {o.C[n - 1], in.hw[n - 1], in.hw[n - 1]};
        else if (o.corner[k + 1].bend) ne[k] = {o.corner[k + 1].as, o.corner[k + 1].s_lo, o.corner[k + 1].s_hi};
        else ne[k] = {o.C[k + 1], in.hw[k + 1], in.hw[k + 1]};
    }
    // ---- joins (corners without a bend): reach per join type + bevel triangle
    for (int i = 1; i + 1 < n; i++) {
        Corner& c = o.corner[i];
        if (c.bend) continue;
        double hw = c.hw;
        for (int j = 0; j < NJ; j++) c.reach[j] = hw;
        if (fabs(c.phi) > 1e-9) {
            double s = c.phi > 0 ? 1 : -1;                      // left turn: outer side is the right one
            V w0 = left(o.tau[i - 1]) * (-s), w1 = left(o.tau[i]) * (-s);
            c.r1 = c.p + w0 * hw;
            c.r2 = c.p + w1 * hw;
            c.reach[J_MITER] = std::max(hw, hw / cos(c.phi / 2));
            c.reach[J_NATURAL] = hw;
            // outer edge directions: from the previous outer vertex to r1, from r2 to the next one.  Two
            // readings of "previous vertex" (corner-to-corner as gdstk's join code, or the real piece end)
            V prevs[2] = {o.C[i - 1] + w0 * in.hw[i - 1], ns[i - 1].p + w0 * in.hw[i - 1]};
            V nexts[2] = {o.C[i + 1] + w1 * in.hw[i + 1], ne[i].p + w1 * in.hw[i + 1]};
            for (int a = 0; a < 2; a++)
                for (int b = 0; b < 2; b++) {
                    V e0 = unit(c.r1 - prevs[a]), e1 = unit(nexts[b] - c.r2);
                    double den = cross(e0, e1);
                    if (fabs(den) < 1e-9) continue;
                    double u0 = cross(c.r2 - c.r1, e1) / den;  // along e0 from r1 to the miter tip
                    V M = c.r1 + e0 * u0;
                    double u1 = dot(c.r2 - M, e1);             // from the tip back to r2 along e1
                    c.reach[J_MITER] = std::max(c.reach[J_MITER], norm(M - c.p));
                    // Natural (read from the code): the miter tip is kept while it lies at most one half
                    // width beyond the corner cross-sections along both outer edges (turn <= 90 deg for
                    // constant width); otherwise both edges are prolonged by hw and the rest is bevelled.
                    double cand;
                    if (u0 <= hw && u1 <= hw) cand = norm(M - c.p);
                    else cand = std::max(norm(c.r1 + e0 * std::min(u0, hw) - c.p), norm(c.r2 - e1 * std::min(u1, hw) - c.p));
                    c.reach[J_NATURAL] = std::max(c.reach[J_NATURAL], cand);
                }
        }
    }
    // ---- regions
    const unsigned ALL = (1u << in.ends.size()) - 1;
    o.valid_ends = ALL;
    auto push = [&](Region r) {
        set_bbox(r);
        o.regions.push_back(r);
    };
    for (int k = 0; k + 1 < n; k++) {
        bool first = k == 0, last = k == n - 2;
        double len = o.remaining[k];
        V t = o.tau[k];
        if (!first && !last) {
            if (len > 1e-9) push(trapezoid(ns[k].p, ne[k].p, ns[k].lo, ns[k].hi, ne[k].lo, ne[k].hi, false, false, ALL, "piece"));
            continue;
        }
        for (size_t v = 0; v < in.ends.size(); v++) {
            const EndVar& ev = in.ends[v];
            Node a = ns[k], b = ne[k];
            bool ga = false, gb = false;
            double cut_s = 0, cut_e = 0;
            if (first && !ev.s_round && ev.s_ext <= 0) { ga = true; cut_s = -ev.s_ext; }
            if (last && !ev.e_round && ev.e_ext <= 0) { gb = true; cut_e = -ev.e_ext; }
            if (cut_s + cut_e > 0) {
                if (!in.raw && cut_s + cut_e + 0.25 > len) { o.valid_ends &= ~(1u << v); continue; }
                if (in.raw && cut_s + cut_e >= len) { o.valid_ends &= ~(1u << v); continue; }
                // the cut end keeps the end's half width (gdstk) or takes the interpolated one: envelope
                Node a0 = a, b0 = b;
                if (cut_s > 0) {
                    double f = cut_s / len;
                    a.p = a0.p + t * cut_s;
                    a.lo = std::min(a0.lo, lerp(a0.lo, b0.lo, f));
                    a.hi = std::max(a0.hi, lerp(a0.hi, b0.hi, f));
                }
                if (cut_e > 0) {
                    double f = cut_e / len;
                    b.p = b0.p - t * cut_e;
                    b.lo = std::min(b0.lo, lerp(b0.lo, a0.lo, f));
                    b.hi = std::max(b0.hi, lerp(b0.hi, a0.hi, f));
                }
            }
            if (len - cut_s - cut_e > 1e-9) push(trapezoid(a.p, b.p, a.lo, a.hi, b.lo, b.hi, ga, gb, 1u << v, first ? (last ? "piece(only)" : "piece(first)") : "piece(last)"));
        }
    }
    // caps
    for (size_t v = 0; v < in.ends.size(); v++) {
        const EndVar& ev = in.ends[v];
        for (int side = 0; side < 2; side++) {
            bool rnd = side == 0 ? ev.s_round : ev.e_round;
            double ext = side == 0 ? ev.s_ext : ev.e_ext;
            V p = side == 0 ? o.C[0] : o.C[n - 1];
            V t = side == 0 ? o.tau[0] * -1.0 : o.tau[n - 2];  // outward direction
            double h = side == 0 ? in.hw[0] : in.hw[n - 1];
            if (rnd) {
                Region r;
                r.kind = Region::HALFDISC;
                r.mask = 1u << v;
                r.name = side == 0 ? "cap(start,round)" : "cap(end,round)";
                r.c = p;
                r.rad[0] = h;
                r.outward = t;
                push(r);
            } else if (ext > 0) {
                Region r;
                r.kind = Region::POLY;
                r.nv = 4;
                r.mask = 1u << v;
                r.name = side == 0 ? "cap(start,extension)" : "cap(end,extension)";
                V nrm = left(t);
                V q = p + t * ext;
                // p-n*h -> q-n*h -> q+n*h -> p+n*h is counter-clockwise when walking outward on the right of t
                r.hi[0] = p - nrm * h; r.hi[1] = q - nrm * h; r.hi[2] = q + nrm * h; r.hi[3] = p + nrm * h;
                for (int i = 0; i < 4; i++) r.lo[i] = r.hi[i];
                r.guard[0] = true; r.guard[1] = true; r.guard[2] = true; r.guard[3] = false;
                fix_ccw(r);
                push(r);
            }
        }
    }
    // corners
    for (int i = 1; i + 1 < n; i++) {
        Corner& c = o.corner[i];
        if (c.bend) {
            if (fabs(c.phi) < 1e-9) continue;
            Region r;
            r.kind = Region::SECTOR;
            r.mask = ALL;
            r.name = "bend";
            r.c = c.cc;
            r.R = c.R;
            r.hlo = c.hlo;
            r.hhi = c.hhi;
            r.u0 = c.u0;
            r.u1 = c.u1;
            r.dir = c.dir;
            push(r);
        } else {
            Region d;
            d.kind = Region::DISC;
            d.mask = ALL;
            d.lower = false;
            d.name = "join";
            d.c = c.p;
            for (int j = 0; j < NJ; j++) d.rad[j] = c.reach[j];
            push(d);
            if (fabs(c.phi) > 1e-6) {
                Region r;
                r.kind = Region::POLY;
                r.nv = 3;
                r.mask = ALL;
                r.upper = false;
                r.name = "join(bevel triangle)";
                r.hi[0] = c.p; r.hi[1] = c.r1; r.hi[2] = c.r2;
                for (int k = 0; k < 3; k++) r.lo[k] = r.hi[k];
                r.guard[0] = false; r.guard[1] = true; r.guard[2] = false;  // only the chord r1-r2 is an outline edge
                fix_ccw(r);
                push(r);
            }
        }
    }
    for (auto& r : o.regions) {
        o.bx0 = std::min(o.bx0, r.bx0); o.by0 = std::min(o.by0, r.by0);
        o.bx1 = std::max(o.bx1, r.bx1); o.by1 = std::max(o.by1, r.by1);
    }
    return o;
}

// classification of one sample: bit v of mc = must be covered under end variant v; bit v of farE = farther
// than g from every end-dependent/straight/bend upper region of variant v; bit j of farJ = farther than
// reach_j + g from every join corner.
struct Cls {
    uint8_t mc, farE, farJ;
};
struct EvalDetail {
    const Region* mc_region = nullptr;  // a region that demands coverage (variant v)
    const Region* near_region = nullptr;  // upper region nearest to the sample
    double near_ex = 1e300;
};

inline bool in_sector_angle(const Region& r, V v) {
    if (r.dir > 0) return cross(r.u0, v) >= 0 && cross(v, r.u1) >= 0;
    return cross(r.u0, v) <= 0 && cross(v, r.u1) <= 0;
}

inline Cls classify(const Oracle& o, V q, double g, int nends, int detail_v = -1, int detail_j = 0, EvalDetail* det = nullptr) {
    const unsigned ALL = (1u << nends) - 1;
    unsigned mc = 0, nearE = 0, nearJ = 0;
    for (const Region& r : o.regions) {
        // pre-filter: farther than g from the bounding box => no contribution
        if (!det && (q.x < r.bx0 - g || q.x > r.bx1 + g || q.y < r.by0 - g || q.y > r.by1 + g)) continue;
        bool m = false;
        double ex = 0;  // lower bound of the distance to the upper extent
        switch (r.kind) {
            case Region::POLY: {
                if (r.lower) {
                    bool in = true;
                    for (int i = 0; i < r.nv && in; i++) {
                        V a = r.lo[i], b = r.lo[(i + 1) % r.nv];
                        V e = b - a;
                        double l = norm(e);
                        if (l < 1e-12) continue;
                        double s = cross(e, q - a) / l;  // inward signed distance (ccw)
                        if (s < (r.guard[i] ? g : 0)) in = false;
                    }
                    m = in;
                }
                if (r.upper) {
                    bool in = true;
                    for (int i = 0; i < r.nv && in; i++) {
                        V a = r.hi[i], b = r.hi[(i + 1) % r.nv];
                        if (cross(b - a, q - a) < 0) in = false;
                    }
                    if (in) ex = 0;
                    else {
                        ex = 1e300;
                        for (int i = 0; i < r.nv; i++) ex = std::min(ex, dist_seg(r.hi[i], r.hi[(i + 1) % r.nv], q));
                    }
                }
            } break;
            case Region::DISC: {
                double d = norm(q - r.c);
                for (int j = 0; j < NJ; j++)
                    if (d - r.rad[j] <= g) nearJ |= 1u << j;
                if (det && d - r.rad[detail_j] < det->near_ex) { det->near_ex = d - r.rad[detail_j]; det->near_region = &r; }
                continue;
            }
            case Region::HALFDISC: {
                V v = q - r.c;
                double d = norm(v);
                m = d <= r.rad[0] - g && dot(v, r.outward) >= 0;
                ex = std::max(0.0, d - r.rad[0]);
            } break;
            case Region::SECTOR: {
                V v = q - r.c;
                double rho = norm(v);
                if (in_sector_angle(r, v)) {
                    m = fabs(rho - r.R) <= r.hlo - g;
                    ex = std::max(0.0, std::max(rho - (r.R + r.hhi), (r.R - r.hhi) - rho));
                } else {
                    double d0 = dist_seg(r.c + r.u0 * (r.R - r.hhi), r.c + r.u0 * (r.R + r.hhi), q);
                    double d1 = dist_seg(r.c + r.u1 * (r.R - r.hhi), r.c + r.u1 * (r.R + r.hhi), q);
                    ex = std::min(d0, d1);
                }
            } break;
        }
        if (m && r.lower) {
            mc |= r.mask;
            if (det && detail_v >= 0 && (r.mask >> detail_v & 1)) det->mc_region = &r;
        }
        if (r.upper && ex <= g) nearE |= r.mask;
        if (det && r.upper && detail_v >= 0 && (r.mask >> detail_v & 1) && ex < det->near_ex) { det->near_ex = ex; det->near_region = &r; }
    }
    Cls c;
    c.mc = (uint8_t)(mc & ALL);
    c.farE = (uint8_t)(~nearE & ALL);
    c.farJ = (uint8_t)(~nearJ & ((1u << NJ) - 1));
    return c;
}

// distance from q to the ideal centre line (straight pieces + arcs), used by the PATH-record check
inline double dist_centerline(const Oracle& o, V q) {
    double d = 1e300;
    for (int k = 0; k + 1 < o.n; k++) {
        V a = k >= 1 && o.corner[k].bend ? o.corner[k].ae : o.C[k];
        V b = k + 1 <= o.n - 2 && o.corner[k + 1].bend ? o.corner[k + 1].as : o.C[k + 1];
        d = std::min(d, dist_seg(a, b, q));
    }
    for (int i = 1; i + 1 < o.n; i++) {
        const Corner& c = o.corner[i];
        if (!c.bend || fabs(c.phi) < 1e-9) continue;
        V v = q - c.cc;
        bool in = c.dir > 0 ? (cross(c.u0, v) >= 0 && cross(v, c.u1) >= 0) : (cross(c.u0, v) <= 0 && cross(v, c.u1) <= 0);
        if (in) d = std::min(d, fabs(norm(v) - c.R));
    }
    return d;
}
// points that the ideal centre line passes through (piece ends, points along arcs every <= 5 degrees)
inline std::vector<V> centerline_keypoints(const Oracle& o) {
    std::vector<V> pts;
    pts.push_back(o.C[0]);
    for (int i = 1; i + 1 < o.n; i++) {
        const Corner& c = o.corner[i];
        if (!c.bend || fabs(c.phi) < 1e-9) { pts.push_back(c.p); continue; }
        int m = std::max(2, (int)ceil(fabs(c.phi) / (5 * M_PI / 180)));
        double a0 = atan2(c.u0.y, c.u0.x);
        for (int k = 0; k <= m; k++) {
            double a = a0 + c.phi * k / m;
            pts.push_back(c.cc + V{cos(a), sin(a)} * c.R);
        }
    }
    pts.push_back(o.C[o.n - 1]);
    return pts;
}

}  // namespace c07
