#!/bin/bash
# For every 'fixed' entry of known_findings.json: re-introduce the defect (reverse-apply the fix commit in a scratch
# worktree of /repo HEAD) and run the property's check against it.  The check must raise a VIOLATION; prints one line per fix.
# usage: tools/revert_fix_selftest.sh [tier] [property-filter]
TIER=${1:-quick}; FILTER=${2:-}
cd /verif
python3 - "$FILTER" <<'PY' > build/fixed.list
import json,sys
flt=sys.argv[1]
for e in json.load(open('known_findings.json'))['findings']:
    if e['status']=='fixed' and (not flt or e['property']==flt): print(e['property'], e['commit'], e['key'])
PY
while read PROP COMMIT KEY; do
  W=/tmp/revfix-$$-$COMMIT
  git -C /repo worktree add --detach "$W" HEAD >/dev/null 2>&1
  if git -C /repo show "$COMMIT" -- src include external | git -C "$W" apply -R 2>/dev/null || git -C /repo show "$COMMIT" -- src include external | git -C "$W" apply -R --3way 2>/dev/null; then
    OUT=$(VERIF_REPO="$W" ./check "$PROP" --tier "$TIER" 2>&1)
    N=$(echo "$OUT" | grep -c '^VIOLATION')
    echo "$PROP $COMMIT $KEY reverted -> violations_reported=$N $(echo "$OUT" | grep -E "^C[0-9]+ tier|CHECK-BROKEN" | tail -1)"
  else
    echo "$PROP $COMMIT $KEY: reverse patch does not apply"
  fi
  git -C /repo worktree remove --force "$W" >/dev/null 2>&1; rm -rf "$W"
done < build/fixed.list
