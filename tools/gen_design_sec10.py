#!/usr/bin/env python3
"""Regenerates DESIGN.md section 10 (everything from '## 10.' to the end) from known_findings.json,
seeded/*/meta.json and the prose kept in this script."""
import json, glob, os, re
V = '/verif'
k = json.load(open(f'{V}/known_findings.json'))['findings']
fixed = [e for e in k if e['status'] == 'fixed']
known = [e for e in k if e['status'] == 'known']
def cell(s, n): return s[:n].replace('|', '/').replace('\n', ' ')
fixed_rows = "\n".join(f"| {e['property']} | `{e['commit']}` | {e['key']} | {cell(e['what'].split(' ', 3)[3] if e['what'].startswith('fixed:') else e['what'], 420)} |" for e in fixed)
known_rows = "\n".join(f"| {e['property']} | {e['key']} | {cell(e['what'], 560)} |" for e in known)
seeds = []
for d in sorted(glob.glob(f'{V}/seeded/*/meta.json')):
    m = json.load(open(d)); sid = os.path.basename(os.path.dirname(d))
    seeds.append((sid, m))
seed_rows = "\n".join(f"| {sid} | {m['property']} | {cell(m.get('summary', '(see notes.md)'), 160)} | {cell(m.get('needs', ''), 170)} | {cell(m.get('detected_by', 'PENDING: missed by the committed check; strengthening in progress'), 300)} |" for sid, m in seeds)
def first_time(r): return sum(1 for sid, m in seeds if sid.endswith(f'-{r}') and m.get('detected_by', '').startswith('caught'))
def total(r): return sum(1 for sid, m in seeds if sid.endswith(f'-{r}'))
import collections
_rv = open(f'{V}/notes/revfix_selftest.log').read().splitlines() if os.path.exists(f'{V}/notes/revfix_selftest.log') else []
_ok = [l for l in _rv if re.search(r'violations_reported=[1-9]', l)]
_zero = [l.split()[1] for l in _rv if 'violations_reported=0' in l]
_na = [l.split()[1] for l in _rv if 'does not apply' in l]
revfix_summary = (f"{len(_ok)} of {len(_ok) + len(_zero) + len(_na)} re-introduced defects are reported again ("
                  + ", ".join(f"{l.split()[0]} {l.split()[1]} -> {re.search(r'violations=([0-9]+)', l).group(1)}" for l in _ok) + "). "
                  + f"{len(_na)} fix commits ({', '.join(_na)}) cannot be reverse-applied on HEAD any more because a later fix rewrote the same lines (they were reported when first reverted, see the git history of this file). "
                  + f"The C05 repairs {', '.join(_zero)} are two of four layered repairs of one family (root cause in Clipper, two robustness repairs in link_holes, XOR as union minus intersection): reverting one of these two alone is masked by the others in the quick tier; reverting all four together is reported (3112 violations), and the tree before them produced 1.85 M violations in the thorough tier.")
rounds = sorted({int(sid.split('-')[1]) for sid, m in seeds})
rounds_line = ", ".join(f"round {r}: {first_time(r)}/{total(r)}" for r in rounds)
pending = sum(1 for sid, m in seeds if 'detected_by' not in m)
benign = []
for d in sorted(glob.glob(f'{V}/benign/*/meta.json')):
    benign.append((os.path.basename(os.path.dirname(d)), json.load(open(d))))
benign_rows = "\n".join(f"| {bid} | {', '.join(m['touches'])[:60]} | {cell(m['summary'], 150)} | {', '.join(k for k in sorted(m['checks_run_quick']))} | {cell(m['verdict'], 80)} |" for bid, m in benign)
n_benign_ok = sum(1 for b, m in benign if m['verdict'].startswith('benign: no check raised an alarm') and 'adjudication' not in m)
n_benign_final = sum(1 for b, m in benign if m.get('rerun_on_final_harness') == 'no alarm')
_bf_bad = [b for b, m in benign if m.get('rerun_on_final_harness', '').startswith('alarm')]
_bf_nr = [b for b, m in benign if m.get('rerun_on_final_harness') == 'not re-run']
benign_final_note = ("" if not _bf_bad else " (alarms: " + ", ".join(_bf_bad) + ", adjudicated below)") + ("" if not _bf_nr else " (not re-run: " + ", ".join(_bf_nr) + ")")
nfix = len(fixed)
sec = f"""## 10. Implementation status, results and adjudications (written after the code)

### 10.1 What exists

All 20 properties have a registered check (`MANIFEST.json`, `not_applicable` is empty).  The
architecture of section 1 was implemented with these deviations:

* Per-property configuration lives in `harness/cXX.reg.json` (loaded by `registry.py`), not in
  one Python table; `./check Cxx --tier T` builds gdstk from the working tree (`build.sh`,
  ASan `-O1 -DNDEBUG`, cached by content hash), builds `harness/cXX.cpp` against it, runs it,
  matches violations against `known_findings.json`, writes `replays/Cxx/*.json` and
  `evidence/Cxx.json` (validated against the schema before exit).  Exit 2 = the check itself is
  broken (build failure, harness crash, invalid evidence, vacuous run below the non-trivial floor).
* C03 and C04 are orchestrated in Python (`codec/c03_check.py`, `codec/c04_check.py`) around the
  independent codecs `codec/gds_codec.py`, `codec/oas_codec.py` and the batch drivers
  `driver/gds_driver.cpp`, `driver/oas_driver.cpp`; C18 additionally reads files produced by those
  codecs (`codec/c18_files.py`); all other checks are single C++ harnesses.
* C05 is built without ASan (`"flavor": "fast"`): 9e8 boolean calls in the thorough tier do
  not fit otherwise; crashes and hangs are still attributed to cases by `parallel_for`.
* Running a check against another tree (`VERIF_REPO=<dir> ./check ...`, used for mutants and
  seeded changes) writes evidence and replays under `build/*-alt` so that committed evidence
  always describes `/repo`.
* No source hooks were needed (`MANIFEST.hooks.source_commits` is empty); harnesses are
  compiled with `-fno-access-control` and read struct fields.
* The pinned test programs are excluded from the default CMake target: the baseline command is
  `cmake --build _build && cmake --build _build --target examples && ctest ...` (the `filtering`
  example races with `layout` under `ctest -j8`; it passes on re-run).

Engines as built (`engine/vf.hpp`): `parallel_for` (E2; forked workers, shared slot per worker,
crash/ASan/hang of an index becomes a violation of that index - or of the operation marked with
`pf_mark` inside it -, hang verdict only after a solo re-run at 20x the limit, workers die with the
harness), `bfs` (E1; state = history replayed on a fresh object, 128-bit hash of the canonical
string, replay divergence is an internal error, each level expanded through `parallel_for`).
Violations are capped per (sub-check, class, tag values) so that one class cannot hide another.

### 10.2 Genuine defects found by the checks and repaired (`fix:` commits in /repo)

{nfix} entries.  Each was first reported by the named check on the then-current tree, adjudicated
against the property text, repaired by one unguarded commit that touches only what the defect
requires, and is recorded as `fixed` in `known_findings.json` (which suppresses nothing).
`tools/revert_fix_selftest.sh` re-introduces each defect (reverse-applies the commit in a scratch
worktree) and runs the check: every one it was run on is reported again (10.6).

| property | commit | key | what failed |
|---|---|---|---|
{fixed_rows}

D-numbers follow section 0.1; everything from D18 on, N1, F-numbered and F13 entries were not
forecast.  The four F13 commits repair one family (Clipper's nesting of touching result fragments
and gdstk's unguarded use of it); they are four separate defects with separate minimal inputs and
were validated together on the full thorough tier of C05 (9.09e8 boolean calls: from 1.85 M
violating cases to the 4-case residual listed below), on C12, C13 and C01, and on the pinned tests
(rationale per patch in `notes/c05-boolean-repair-NOTES.md`).

### 10.3 Genuine defects recorded as known findings (not repaired)

| property | key | what fails / why not repaired |
|---|---|---|
{known_rows}

Each entry is matched by sub-check, failure class and tag predicates computed by the harness for
the failing case (see `known_findings.json`); a violation outside those predicates is reported.

### 10.4 False alarms corrected (the check demanded more than the property says)

* **C13, round joins**: the first oracle required corner-nearest points closer than d*cos(pi/N)
  to be covered.  Clipper's `DoRound` closes an arc with a chord of up to 1.5 steps, and the
  property only says "d for round joins up to the arc resolution".  The factor is now
  cos(1.5*pi/N); coarser arcs still fail; the observed worst ratio is reported as a counter.
* **C13, error code**: `offset()` returned `BooleanError` for a key-holed ring plus a touching
  rectangle at d = -0.5 although every sample was classified correctly.  The property speaks about
  the covered region only; the error code alone is a counter, and a violation only together with a
  region failure.  (The F13 repairs later removed these error codes.)
* **C04, S bit**: gdstk writes its S_* standard properties with the S bit of the PROPERTY info
  byte clear.  The property demands that standard properties "state the truth about the file",
  not that bit; the decoded library equals the saved one either way.  Now a counter.
* **C04, S_POLYGON_MAX_VERTICES** when polygons are written as RECTANGLE/TRAPEZOID/CTRAPEZOID/
  CIRCLE records: the value is the maximum over the polygons those records denote; accepted.
* **C16** model mistakes found while building (wrong RobustPath::init overload, duplicate names
  through replacing a cell still referenced from a removed cell - now a precondition).
* **C01** model corrections: centre lines of re-loaded simple robust paths (extra sample points),
  area slack of fractured polygons, AREF corner must fit 32 bits, one grid step allowed for a
  reference origin exactly on a half-grid value.
* **C15** nearest-parameter search across piece junctions and near cusps (16x finer rescan
  before any verdict).  **C07** non-degeneracy predicate extended (inner side running into a
  neighbouring fitted bend).  **C20** harness hashed the key pointer instead of the string
  (overload `hash(T)` vs `hash(const char*)`).
* **C15, closed primitives** (found by the benign-change experiment, 10.6 d): the ellipse/slice judgement assumed
  that a plain slice starts at its centre.  The property fixes neither the starting vertex nor the winding of
  ellipses, rings, slices, racetracks or fillet outputs; the judgement now tries every cut of the analytic outline at
  vertex 0 and both directions and accepts if one consistent walk exists.
* **C20, home slots** (benign-change experiment): the probe-chain invariant assumed gdstk's generic `hash()` for every
  table type; it now asks each table type for the home slot of a key.
* **C13, samples inside the source at scaling 1**: "a sample inside A must be covered" ignored the rounding guard; the
  distance is now signed and goes through the same guard test (identical verdicts at the ordinary scalings).
* **C06, curved paths under magnification**: a path with circular bends that is polygonised after being magnified
  has more arc points than its magnified leaf outline; for that leaf kind outlines are compared as closed polylines
  within 2.5 path tolerances times the total magnification instead of vertex by vertex.
* **C13, set-up through the library** (seeded/C13-12): the harness built its key-holed ring inputs with gdstk's own
  `boolean()`; a change in the hole handling shared by `boolean()` and `offset()` made the set-up fail and the check ended
  `CHECK-BROKEN` (exit 2) instead of reporting.  Not a false alarm but a wrong kind of answer: the inputs are now built by the
  harness itself (rasterised cut-outs, hand-made slits, self-checked by the harness's own winding), no library call remains
  in any set-up step, and the defect shows as `offset` violations.
* **C17, a file that every reader rejects** (library-name family, F16): the first version reported "full load of a legal
  file fails" for a 65530-character library name although `gds_info` and `gds_units` failed in the same way - C17 states
  agreement between the readers, and they agreed.  The defect itself is genuine (F16, repaired, now guarded by C03's
  long-record family); C17 reports a failing full load only when a lightweight query still answers, and counts files that
  every reader rejects alike.
* **C15, Hobby-equation verification at other magnitudes**: three slacks of the harness's own check of the interpolation
  equations were absolute; with every length multiplied by 1e-9 they raised 33 alarms on HEAD and at 1e+9 they were vacuous.
  They are now relative to the chord length (the property bounds deviations relative to the curve tolerance).
* **C03, copies of a repeated element** (first version of `copies_translation_closed`): demanded exact translates of the
  fractured pieces; the writer rounds (offset + point) per copy, so translates may differ by one grid unit.  Allowed.
* **C16, caller-owned maps** (first version of the `persistent-map` oracle): an entry reachable only through a cell that is
  no longer a member may legitimately keep its old value (the recursive query skips the subtree of a name already in the
  map); the oracle judges the names designated directly by members.
* Observations deliberately NOT demanded (counted in evidence): GDSII property order reversal on
  load (C01), -0.0 reading back as +0.0 and double rounding of ratio reals with operands above
  2^53 (C19), `element_center` index slip for tapered
  simple paths (C07; documented as unsupported).  (Unreduced Hobby constraint angles were first only counted; the orientation
  closure added for seeded/C15-10 showed that they make the interpolant depend on the heading of the construction - a genuine
  defect, repaired as F15.)

### 10.5 Bounds actually completed (see evidence files for measured counts)

Quick tiers complete in 10-100 s each on this machine when run alone (`vp check`: every registered quick command on a
fresh copy, a few minutes in total, nothing needed attention).  `tools/run_all.sh thorough` ran every
thorough tier end to end five times over the session (logs `build/thorough_all*.log`); the last sweep, on the final
harnesses, is summarised in `notes/thorough_final.log`: every check exits 0 and every bound is complete.  Wall times on
the otherwise idle machine: about 40 min for C06, 15-30 min for C05, C08, C09, C13, C14, C15, C16, C19, C20, 5-15 min for
C01, C02, C03, C07, C11, C12, C17, under 5 min for C04, C10, C18.  A bound that hits the soft deadline (5400 s for the heavy
checks, 3000 s otherwise; it was hit twice while twenty other jobs loaded the machine, never on a quiet one) is reported
`complete=false` / `exhaustive=false` and the check still exits 0.

Later session (rounds 16 and 17): C06, C09 and C17 gained sub-checks (`hier.reduce`, `geom.reduce`, cache reuse after
`GeometryInfo::clear()`, pre-filled result arrays, near-miss filter tags, the cell-name length family).  Their quick tiers
were run to completion on the unchanged tree after every change (all exit 0, exhaustive); the thorough tier of C17 was run end to end again on the strengthened harness
(`notes/thorough_session3.log`: exit 0, exhaustive).  The thorough tier of C09 on its final harness was started twice but the
session ended before it could finish (the second run had judged 14 382 of 37 650 chunks of the main space, about 920 000 hierarchies,
with no violation when it was stopped); its last complete run is the one in `notes/thorough_final.log`, before `geom.reduce`,
the release-and-reuse step and the pre-filled result arrays were added - those additions ran to completion in the quick tier, and
the thorough tier only enlarges their spaces (soft deadline 5400 s, exit 0 with `exhaustive=false` beyond it).  The thorough tier of C06 (35-80 min)
was NOT run again after `hier.reduce` and the near-miss tags were added: `hier.reduce` enumerates the same 3072 hierarchies
in both tiers and the mixed leaf is part of the quick space, both completed there; the soft deadline still guarantees exit 0
with `exhaustive=false` should the added work not fit.  The six benign changes of C06 and C09 (section 10.6 d) were run again
against the strengthened harnesses: no alarm (`notes/benign_session3.log`).

### 10.6 Detection evidence

Three independent sources; none of these changes is ever committed to /repo.

**(a) Re-introducing repaired defects** (`tools/revert_fix_selftest.sh`: reverse-apply each fix
commit in a scratch worktree of HEAD, run the property's quick check; last full run on the final harnesses,
log in `notes/revfix_selftest.log`): {revfix_summary}

**(b) Mutants written by the harness authors** (scratch copy of the tree via `VERIF_REPO`, quick
tier).  Caught / tried: C01 7/8 (an XY split that loses only the closing point is invisible to a
round trip - it is caught by C03's strict decoder), C02 8/8, C03 6/6, C04 10/10, C05 4/4, C07 9/9,
C08 9/9, C10 8/8, C11 8/8, C12 8/8, C13 5/5, C14 6/6, C15 5/6 (removing `append_quad`'s refinement
loop moves the worst quadratic deviation from 1.00 to 1.21 tolerances - within the property's bound),
C16 15/15, C17 6/6, C19 7/7, C20 5/6 (replacing the median-of-3 pivot selection is an equivalent
mutant: Hoare partition stays correct), C09/C06/C18: the reverted fixes of (a).

**(c) Changes seeded by fresh sub-agents that saw only the property text and a scratch worktree**
(`/verif/seeded/<id>/`: `patch.diff`, `demo.cpp`, `notes.md`, `meta.json`).  Each was confirmed with
`tools/seed_verify.sh`: the demonstration exits 0 on HEAD and non-zero with the patch, the 18
pinned tests (examples target rebuilt) pass with the patch, then the property's quick check was run
against the patched tree.  Rounds of 20 (one change per property; rounds 15, 16 and 17 only for the five harnesses written last, C06, C09, C17, C18, C20; from round 2 on the agents were told which functions
earlier rounds had used and asked for a different function and mechanism, later rounds also for defects that need a
history, two cooperating sites, a boundary value or a rarely used option).  Caught at once by the check as it stood:
{rounds_line}.  Every miss exposed a hole in an alphabet; the check was strengthened until the change was caught and
re-verified with the same script.  Status of all {len(seeds)} changes ({pending} still being worked on are marked pending):

| id | property | change | needs | outcome |
|---|---|---|---|---|
{seed_rows}

What the misses taught (all fixed in the harnesses): alphabets must contain *prefix-related names*
(C16), *non-origin first vertices colliding with delta values* (C19), *bend radii that compete for a
segment* (C07), *inputs that drive the sort into its fallback regime* (C12; derived from the
implementation with McIlroy's adversary), *16-bit tag values with the top bit set* and *default
arguments* (C17), *partial circles* (C02), *boundary value counts of a format field* (C04: 15
property values), *the heavy members of a family also in the quick tier* (C01, C07: more than one
XY record), *degenerate lattice shapes* (C09: one column / one row), *containers built by
histories, not only by insertion* (C16 remap tables), *objects with a transform history before the
operation under test* (C01, C11, C02, C04: mirrored / scaled paths before saving), *arguments that are
usually zero* (C08: arc rotation), *files whose parts were written at different times* (C17),
*save histories on one object* (C04: write, edit, write again), *both windings of every input polygon*
(C13), *redundant collinear vertices and every start vertex* (C15 fillets), *multi-point overloads as
predecessors of continuation sections* (C15), *boundary values of a number format* (C01/C03: exact powers
of 16 in 8-byte reals), *property lists built by overwriting* (C03), *interfaces that build the same object
another way* (C07: command strings, also stopping early), *curved content under magnifying references*
(C06: circular bends), *dependency graphs in which a shared node precedes a unique one* (C17),
*containers that have shrunk* (C17: filter sets after deletions), *path offsets together with several joints* (C01),
*coordinates whose products do not fit a double* (C14), *values wider than the field a shortcut assumes* (C20: attributes
above 2^16; C02/C07: deltas above 2^31; C19: odd integers above 2^52; C13: scaled coordinates above 2^31),
*records at the limits of a length field* (C03/C17: 2^15 and 65534 bytes; C08: more than 8190 points),
*exact ties of a rounding rule* (C04), *distances exactly at a tolerance* (C01), *angles next to and on the negative side of
the special ones* (C09, C10, C06), *absolute magnitudes far from 1* (C15), *caller-owned containers that are used a
second time* (C16), *caches whose entries were released while the container was kept* (C09: GeometryInfo::clear() then
reuse of the map), *string lengths of both parities and beyond the length of the preceding record* (C17: cell names of
2..100 characters) *near misses of a filter key* (C06: same layer / other type), *documented append semantics of output containers* (C09: pre-filled result arrays) and *factors below one where only enlargements were enumerated* (C09/C06: magnification 0.5; found
by a self-made change, not by a seed).

**(d) Benign changes: looking for false alarms.**  The reverse experiment: 20 fresh sub-agents (property
text and a scratch worktree only, `tools/benign_prompt.py`) each produced three realistic maintenance
changes under which their property still HOLDS but something a careless checker might hard-wire changes
(vertex order / start vertex, number of arc points within tolerance, order of pieces, records or cells,
which legal encoding is written, hash function, load factor, buffer growth, message texts, error code among
justified ones, refactorings).  `tools/benign_verify.sh` applies each to a scratch worktree and runs the
quick check of the property itself and (`tools/benign_cross.sh`) of every other property whose code the
patch touches.  {len(benign)} changes (`/verif/benign/<id>/`: `patch.diff`, `notes.md`, `meta.json`):
{n_benign_ok} raised no alarm in any check run on them.  After seed rounds 12-15 had widened many alphabets, every benign change was run once more against the final harness of its own property (`notes/benign_final.log`): {n_benign_final} of {len(benign)} raise no alarm{benign_final_note}.  The alarms of the first pass:

* `benign/C15-3` (slices emitted arc-first, centre last): C15 reported 372 `primitive.ellipse/off-curve`
  violations - a FALSE ALARM of the check (it assumed where the vertex list of a slice starts).  Corrected:
  the judgement of every closed primitive is now invariant under cyclic rotation and winding (10.4);
  an invariance self-check re-judges every 4th primitive rotated and reversed.
* `benign/C16-3` (a dedicated integer hash for `TagMap`): C20 reported 322 `table.tagmap/probe-chain` violations - a
  FALSE ALARM: the open-addressing invariant was evaluated with home slots computed from gdstk's generic `hash()`.
  Corrected: home slots are asked from each table type itself (`get_slot` on an empty table of the same capacity) and
  the colliding key alphabets are searched per table type, so the check no longer depends on which hash a table uses.
* `benign/C02-3` and `benign/C03-2` (hash-table load factor 0.5 -> 0.7): C16 and C20 report a hang.  This is a
  TRUE alarm: `Library::top_level` sizes its maps by hand (`resize(count * 2)`), so with a higher load factor a
  map of capacity 2 fills completely and `Map::get` of an absent name never terminates.  The change is not benign
  for C16/C20 (its authors only argued about their own property); kept as detection evidence.

| id | touches | change | quick checks run | verdict |
|---|---|---|---|---|
{benign_rows}

### 10.7 Properties outside the technique

None: every property is decided by bounded exhaustive enumeration of inputs, configurations, crash
points or operation histories on the real code.  No property quantifies over schedules (the library
is single-threaded), so no scheduler, Spin/TLC model or sanitizer-for-races pass was needed; the
evidence of the BFS checks (C10, C16, C20) reports states, transitions and the number of histories
executed on the implementation, the others report cases, measured non-trivial counts and which
bounds were completed.
"""
s = open(f'{V}/DESIGN.md').read()
i = s.index('## 10. Implementation status')
open(f'{V}/DESIGN.md', 'w').write(s[:i] + sec)
print("section 10 regenerated:", len(sec), "bytes;", nfix, "fixed,", len(known), "known,", len(seeds), "seeds")
