#!/usr/bin/env python3
"""tools/benign_prompt.py Cxx [tag] -> prompt for an independent sub-agent that produces BENIGN changes: realistic
maintenance edits of gdstk under which the property still holds.  They are run against the checks to look for false alarms
(a check that reports a violation on such a tree demands more than the property states)."""
import json, sys
pid = sys.argv[1]
tag = sys.argv[2] if len(sys.argv) > 2 else pid + "b"
for l in open('/verif/properties.jsonl'):
    p = json.loads(l)
    if p['id'] == pid:
        break
d = f"/tmp/seed-{tag}"
print(f"""You are a maintainer of the gdstk C++ library (reading/writing GDSII and OASIS chip-layout files, and polygon geometry). You work ONLY inside the git worktree {d}. Do not read or write anything under /verif or /repo, and do not use the network (there is none).

Somebody is building a verification tool for the following property of the library, and we need to know whether that tool raises FALSE alarms on harmless code changes:
  Title: {p['title']}
  Statement: {p['statement']}
  Holds: {p['quantifier']['text']}
  Mainly implemented in: {', '.join(p['anchors']['files'])}

Task: produce THREE separate, realistic changes to the library source (under src/, include/ or external/) in or around the code this property is anchored in, each of which KEEPS THE PROPERTY TRUE (for every input in the property's scope) but changes something else that a careless checker might have hard-wired: an internal representation, the order or starting vertex of emitted points, the number of points used for a curve while still within the requested tolerance, the order of pieces/elements/records where the property does not fix it, which of several legal encodings is written to a file, buffer sizes, growth policy or hash function of a container, the text of warnings/error messages, which legal error code among equally justified ones, refactorings (loop restructuring, helper extraction, early exits), small performance shortcuts, behaviour for inputs OUTSIDE the property's stated scope.  Each change should be the kind of commit a maintainer could really make (optimisation, clean-up, portability, different-but-valid output), 1-40 lines, and observable in some way (not a pure comment/whitespace edit).  The three must differ in kind and location.  Think carefully about whether the property really still holds after each change; if you are not sure, choose a different change.

For each change k = 1,2,3:
  - start from the unmodified tree (`git -C {d} checkout -- src include external`), make the change, then
      cmake --build {d}/_build && cmake --build {d}/_build --target examples && ctest --test-dir {d}/_build -j8 --repeat until-pass:2
    (already configured with Ninja; all 18 tests must pass; the test programs are excluded from the default target, so build `examples`),
  - save it: `git -C {d} diff -- src include external > {d}/out/benign<k>.diff`  (mkdir -p {d}/out first),
  - write a few lines in {d}/out/benign<k>.md: what changed, what observable difference it makes, and your argument why the property still holds for every input in its scope.
Do NOT use `git stash` or any other git command that touches shared repository state (this worktree shares its repository with others); `git checkout -- <paths>`, `git diff` and `git apply` inside {d} are fine.
Final answer: a three-item summary (change, observable difference, why the property still holds).""")
