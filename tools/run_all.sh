#!/bin/bash
# tools/run_all.sh <tier> [props...]: run the registered checks one after another, one summary line each
TIER=${1:-quick}; shift
PROPS=${@:-$(python3 -c "import json;print(' '.join(c['property_id'] for c in json.load(open('/verif/MANIFEST.json'))['checks']))")}
cd /verif
for p in $PROPS; do
  s=$(date +%s)
  out=$(./check $p --tier $TIER 2>&1); rc=$?
  echo "$p rc=$rc $(echo "$out" | grep -E "^C[0-9]+ tier|CHECK-BROKEN" | tail -1) [$(( $(date +%s) - s )) s wall]"
  [ $rc -ne 0 ] && echo "$out" | grep -E "^VIOLATION|^INTERNAL" | head -5
  cp evidence/$p.json build/evidence-$TIER-$p.json 2>/dev/null
done
