#!/usr/bin/env python3
"""tools/manifest_add.py Cxx <category> <engine> <technique> <level_text> <level_note> — add/replace a check entry and drop it from not_applicable."""
import json, sys
pid, cat, engine, technique, text, note = sys.argv[1:7]
m = json.load(open('MANIFEST.json'))
m['checks'] = [c for c in m['checks'] if c['property_id'] != pid]
m['checks'].append({
    "property_id": pid,
    "quick_cmd": f"./check {pid} --tier quick",
    "thorough_cmd": f"./check {pid} --tier thorough",
    "evidence_file": f"evidence/{pid}.json",
    "replay_cmd_template": f"./check {pid} --replay {{path}}",
    "engine": engine,
    "level_claimed": {"category": cat, "text": text, "design_ref": f"DESIGN.md 2/{pid}"},
    "level_note": note,
    "technique": technique,
})
m['checks'].sort(key=lambda c: c['property_id'])
m['not_applicable'] = [n for n in m.get('not_applicable', []) if n['property_id'] != pid]
for e in m['engines']:
    if e['name'] == engine and pid not in e['serves_properties']:
        e['serves_properties'].append(pid); e['serves_properties'].sort()
json.dump(m, open('MANIFEST.json', 'w'), indent=1)
print("checks:", [c['property_id'] for c in m['checks']])
