#!/bin/bash
# tools/seed_worktree.sh <name>  — fresh detached worktree of /repo HEAD at /tmp/seed-<name>, configured for building.
set -e
D=/tmp/seed-$1
git -C /repo worktree remove --force "$D" 2>/dev/null || true
rm -rf "$D"
git -C /repo worktree add --detach "$D" HEAD >/dev/null
cmake -S "$D" -B "$D/_build" -G Ninja -DCMAKE_BUILD_TYPE=RelWithDebInfo >/dev/null
echo "$D"
