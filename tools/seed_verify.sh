#!/bin/bash
# tools/seed_verify.sh <seeded dir> [tier]
# Confirms a seeded change: (1) applies patch.diff to a scratch worktree of /repo HEAD, builds, runs the pinned ctest suite
# (must pass); (2) builds+runs the demonstration with and without the change (must fail with, pass without);
# (3) runs ./check <property> against a patched copy (VERIF_REPO) and reports whether it raises a VIOLATION.
set -u
SD=$(cd "$1" && pwd); TIER=${2:-quick}
PROP=$(python3 -c "import json;print(json.load(open('$SD/meta.json'))['property'])")
W=/tmp/seedverify-$$
git -C /repo worktree add --detach "$W" HEAD >/dev/null 2>&1
trap 'git -C /repo worktree remove --force "$W" >/dev/null 2>&1; rm -rf "$W"' EXIT
build_and_demo() {  # $1 = label
  cmake -S "$W" -B "$W/_build" -G Ninja -DCMAKE_BUILD_TYPE=RelWithDebInfo >/dev/null 2>&1
  cmake --build "$W/_build" >"$W/build.$1.log" 2>&1 || { echo "BUILD-FAILED($1)"; tail -5 "$W/build.$1.log"; return 1; }
  cmake --build "$W/_build" --target examples >>"$W/build.$1.log" 2>&1 || { echo "EXAMPLES-BUILD-FAILED($1)"; tail -5 "$W/build.$1.log"; return 1; }
  g++ -std=c++11 -O1 -g -I"$W/include" -I"$W/external" "$SD/demo.cpp" "$W/_build/src/libgdstk.a" "$W/_build/external/libclipper.a" -lz -lqhull_r -o "$W/demo.$1" >"$W/demo.$1.log" 2>&1 || { echo "DEMO-BUILD-FAILED($1)"; tail -5 "$W/demo.$1.log"; return 1; }
  mkdir -p "$W/out"; (cd "$W" && timeout 120 ./demo.$1 >"$W/demo.$1.out" 2>&1); echo "demo($1) exit=$? $(tail -1 "$W/demo.$1.out" | cut -c1-160)"
}
echo "== without the change"; build_and_demo base
git -C "$W" apply "$SD/patch.diff" || { echo "PATCH-DOES-NOT-APPLY"; exit 2; }
echo "== with the change"; build_and_demo seeded
echo "== pinned tests with the change"; ctest --test-dir "$W/_build" -j4 --timeout 900 --repeat until-pass:2 2>&1 | grep -E "tests passed|tests failed|\*\*\*Failed|Timeout"
echo "== ./check $PROP --tier $TIER against the seeded tree"
(cd /verif && VERIF_REPO="$W" ./check "$PROP" --tier "$TIER" > "$W/check.out" 2>&1; echo "violation_lines=$(grep -c '^VIOLATION' "$W/check.out")"; grep -E "^VIOLATION" "$W/check.out" | head -2; grep -A1 -E "^VIOLATION" "$W/check.out" | grep sub_check | sort | uniq -c | sort -rn | head -4 | cut -c1-200; grep -E "^C[0-9]+ tier|CHECK-BROKEN" "$W/check.out")
