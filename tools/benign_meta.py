#!/usr/bin/env python3
"""tools/benign_meta.py: writes benign/<id>/meta.json from the logs of tools/benign_verify.sh (build/benign1.log = the change's own
property, build/benign2.log = the other properties whose code it touches, build/benign3.log = re-runs after corrections, build/benign4.log = own property again on the final harnesses)."""
import json, os, re, glob
V = '/verif'
def parse(path):
    res = {}
    if not os.path.exists(path): return res
    cur = None
    for line in open(path):
        m = re.match(r'#### (C\d\d-\d)', line)
        if m: cur = m.group(1); res.setdefault(cur, {}); continue
        m = re.match(r'check (C\d\d) rc=(\d+) violation_lines=(\d+)', line)
        if m and cur: res[cur][m.group(1)] = (int(m.group(2)), int(m.group(3)))
    return res
own, cross, rerun = parse(f'{V}/build/benign1.log'), parse(f'{V}/build/benign2.log'), parse(f'{V}/build/benign3.log')
final = parse(f'{V}/build/benign4.log')   # every change again, own property, on the final harnesses (after seed rounds 12-15)
ADJ = {
 'C15-3': ("false alarm of C15, corrected", "C15's ellipse judgement hard-wired the starting vertex of a slice (centre first); the property fixes no starting vertex. The closed-primitive judgement is now invariant under cyclic rotation and winding (DESIGN.md 10.4); re-run: no alarm."),
 'C02-3': ("not benign (true alarm of C16 and C20)", "raising the load factor to 0.7 lets a table sized by hand fill completely: Library::top_level sizes its maps with resize(count * 2), so with one listed cell and two dependencies the map of capacity 2 holds 2 entries and the next Map::get of an absent name never terminates (get_slot has no empty slot to stop at).  C16 (history replace_cell / cell_array.remove, then top_level) and C20 (Map histories with small explicit capacities) report the hang; the change breaks C16/C20 although C02 itself still holds."),
 'C16-3': ("false alarm of C20, corrected", "C20's open-addressing invariant (every entry reachable from its home slot) computed the home slot with gdstk's generic hash(); with a dedicated TagMap hash the invariant was evaluated against the wrong slots (322 table.tagmap/probe-chain violations).  The property does not fix the hash function: home slots are now asked from each table type itself (get_slot on an empty table of the same capacity) and the colliding key alphabets are searched per table type (DESIGN.md 10.4); re-run: no alarm."),
 'C20-2': ("benign: no check raised an alarm (one alarm of C02 came from an intermediate state of its harness)", "the cross pass ran C02 while its standard-property cycle check was being developed; the strict first version compared summarising properties between the first and second re-loaded library and was scoped by its author before it was committed.  Re-run with the committed harness: no alarm."),
 'C03-2': ("not benign (true alarm of C16 and C20)", "same mechanism as benign/C02-3 (load factor 0.7 with hand-sized tables in Library::top_level)."),
}
for d in sorted(glob.glob(f'{V}/benign/C*')):
    bid = os.path.basename(d)
    notes = open(d + '/notes.md').read() if os.path.exists(d + '/notes.md') else ''
    files = re.findall(r'^\+\+\+ b/(\S+)', open(d + '/patch.diff').read(), flags=re.M)
    checks = {}
    for src in (own, cross, rerun, final):
        for p, (rc, vl) in src.get(bid, {}).items():
            checks[p] = "no alarm" if rc == 0 and vl == 0 else f"alarm (exit {rc}, {vl} VIOLATION lines)"
    verdict, why = ADJ.get(bid, (None, None))
    if verdict is None:
        bad = [p for p, v in checks.items() if v != "no alarm"]
        verdict = "benign: no check raised an alarm" if not bad else "UNADJUDICATED alarm of " + ", ".join(bad)
        why = ""
    first = next((l.strip() for l in notes.splitlines() if l.strip() and not l.startswith('#')), '')
    meta = {"property": bid.split('-')[0], "touches": files, "summary": first[:400], "checks_run_quick": checks, "verdict": verdict, "rerun_on_final_harness": ("no alarm" if bid in final and all(rc == 0 and vl == 0 for rc, vl in final[bid].values()) else ("not re-run" if bid not in final else "alarm (see notes/benign_final.log)"))}
    if why: meta["adjudication"] = why
    json.dump(meta, open(d + '/meta.json', 'w'), indent=1)
    print(bid, verdict, len(checks))
