#!/usr/bin/env python3
"""tools/seed_prompt.py Cxx [variant-hint] -> prints the prompt for an independent seeded-defect sub-agent (property text only)."""
import json, sys
pid = sys.argv[1]
hint = sys.argv[2] if len(sys.argv) > 2 else ""
tag = sys.argv[3] if len(sys.argv) > 3 else pid
for l in open('/verif/properties.jsonl'):
    p = json.loads(l)
    if p['id'] == pid:
        break
d = f"/tmp/seed-{tag}"
print(f"""You are a software engineer asked to produce a *seeded defect* for evaluating a verification tool. You work ONLY inside the git worktree {d} (a checkout of the gdstk C++ library: reading/writing GDSII and OASIS chip-layout files, and polygon geometry). Do not read or write anything under /verif or /repo, do not look for other people's checks, and do not use the network (there is none).

Property the library is supposed to satisfy:
  Title: {p['title']}
  Statement: {p['statement']}
  Holds: {p['quantifier']['text']}
  Mainly implemented in: {', '.join(p['anchors']['files'])}

Task: make ONE small, realistic change to the library source (under src/, include/ or external/ of the worktree) that BREAKS this property, while (a) the library still compiles and (b) the project's own test suite still passes. The change must look like a plausible maintenance mistake (off-by-one, wrong variable, dropped branch, swapped sign, stale value, forgotten update at a second site, wrong loop bound, ...), NOT sabotage keyed on magic values. It must need something specific to manifest - a particular multi-step sequence of operations, an unusual but legal input, a particular combination of options, a specific truncation point, or two cooperating sites that each look fine alone - rather than something ordinary use would expose at once. Prefer a silently wrong RESULT over a crash unless the property is itself about crashes. {hint}

Build and test:
  cmake --build {d}/_build            (already configured with Ninja; static libraries appear at _build/src/libgdstk.a and _build/external/libclipper.a)
  cmake --build {d}/_build --target examples   (the 18 test programs are excluded from the default target: build them after every library change)
  ctest --test-dir {d}/_build -j8     (18 tests; all must still pass with your change)
Demonstration: write {d}/out/demo.cpp, a small self-contained C++11 program using the public API (#include <gdstk/gdstk.hpp>) that returns 0 when the property holds in its scenario and non-zero (with a one-line message on stderr) when it is violated. Build it with:
  g++ -std=c++11 -O1 -g -I{d}/include -I{d}/external {d}/out/demo.cpp {d}/_build/src/libgdstk.a {d}/_build/external/libclipper.a -lz -lqhull_r -o {d}/out/demo
It must exit 0 against the UNMODIFIED library and non-zero against your modified one (verify both: save your change with `git -C {d} diff -- src include external > {d}/out/patch.diff`, then `git -C {d} apply -R out/patch.diff` / rebuild / run, and `git -C {d} apply out/patch.diff` / rebuild / run; do NOT use `git stash` or any other git command that touches shared repository state - this worktree shares its repository with others). Run it with {d} as working directory; scratch files only under {d}/out.
Deliver in {d}/out/: patch.diff (output of `git -C {d} diff -- src include external`), demo.cpp, and notes.md (5-10 lines: what the change is, why it breaks the property, what specific condition is needed for it to manifest, and the commands you ran with their outcomes: ctest result with the change, demo exit code with and without the change).
Leave the worktree with your change applied and built. Final answer: a short summary (the change, the triggering condition, evidence that the tests pass and that the demo discriminates).""")
