#!/bin/bash
# tools/benign_verify.sh <benign dir> [tier] [props...]
# Applies a benign change (property still holds) to a scratch worktree of /repo HEAD, runs the pinned tests, and runs
# ./check for the property (default: the property named by the directory, plus any extra ids) against it.
# Expected: no VIOLATION line.  A VIOLATION here is either a false alarm of the check or a change that is not benign.
set -u
BD=$(cd "$1" && pwd); TIER=${2:-quick}; shift; shift || true
PROP=$(basename "$BD" | cut -d- -f1)
if [ "${BENIGN_ONLY_EXTRA:-0}" = 1 ]; then PROPS="$*"; else PROPS="$PROP $*"; fi
W=/tmp/benignverify-$$
git -C /repo worktree add --detach "$W" HEAD >/dev/null 2>&1
trap 'git -C /repo worktree remove --force "$W" >/dev/null 2>&1; rm -rf "$W"' EXIT
git -C "$W" apply "$BD/patch.diff" || { echo "PATCH-DOES-NOT-APPLY"; exit 2; }
if [ "${BENIGN_SKIP_CTEST:-0}" != 1 ]; then
  cmake -S "$W" -B "$W/_build" -G Ninja -DCMAKE_BUILD_TYPE=RelWithDebInfo >/dev/null 2>&1
  cmake --build "$W/_build" >"$W/build.log" 2>&1 && cmake --build "$W/_build" --target examples >>"$W/build.log" 2>&1 || { echo "BUILD-FAILED"; tail -5 "$W/build.log"; exit 2; }
  echo "ctest: $(ctest --test-dir "$W/_build" -j4 --timeout 900 --repeat until-pass:2 2>&1 | grep -E "tests passed|tests failed")"
  rm -rf "$W/_build"
fi
for p in $PROPS; do
  (cd /verif && VERIF_REPO="$W" ./check "$p" --tier "$TIER" > "$W/check.out" 2>&1; echo "check $p rc=$? violation_lines=$(grep -c '^VIOLATION' "$W/check.out")"
   grep -A1 -E "^VIOLATION" "$W/check.out" | grep sub_check | sort | uniq -c | sort -rn | head -6 | cut -c1-260; grep -E "^C[0-9]+ tier|CHECK-BROKEN" "$W/check.out")
done
