#!/bin/bash
# tools/thorough_final.sh: composes notes/thorough_final.log = for every property the LAST thorough result line found in the
# sweep logs build/thorough_all*.log (the last sweep that ran the final harness of that property).
cd /verif
{
echo "# last thorough run of every check on the final harnesses (HEAD $(git -C /repo rev-parse --short HEAD)); source: build/thorough_all*.log in time order"
for p in C01 C02 C03 C04 C05 C06 C07 C08 C09 C10 C11 C12 C13 C14 C15 C16 C17 C18 C19 C20; do
  ls -tr build/thorough_all*.log | xargs grep -h "^$p rc=" | tail -1
done
} > notes/thorough_final.log
cat notes/thorough_final.log | cut -c1-175
