#!/bin/bash
# tools/benign_cross.sh [tier]: run, for every benign change, the checks of the OTHER properties whose code it touches.
cd /verif
TIER=${1:-quick}
declare -A MAP=(
 [src/repetition.cpp]="C11 C06 C10 C09 C01 C02"
 [src/polygon.cpp]="C14 C15 C12 C10 C01 C02"
 [src/clipper_tools.cpp]="C05 C12 C13"
 [include/gdstk/utils.hpp]="C20 C16 C09 C03 C02 C17"
 [include/gdstk/tagmap.hpp]="C20 C16"
 [include/gdstk/sort.hpp]="C20 C12 C05"
 [src/utils.cpp]="C15 C07 C09 C08 C02"
 [src/curve.cpp]="C15 C07"
 [src/flexpath.cpp]="C07 C01 C02 C10 C03"
 [src/robustpath.cpp]="C08 C10 C02 C01"
 [src/oasis.cpp]="C19 C02 C04"
 [src/gdsii.cpp]="C19 C18 C01 C03 C17"
 [src/library.cpp]="C01 C02 C03 C04 C17 C18 C16"
 [src/cell.cpp]="C06 C09 C16 C03 C01 C12"
 [src/reference.cpp]="C06 C09 C10 C01"
 [src/rawcell.cpp]="C17 C18 C16"
 [src/label.cpp]="C01 C03 C06 C02"
 [src/property.cpp]="C20 C01 C02"
 [src/style.cpp]="C20"
)
for d in benign/C*; do
  own=$(basename $d | cut -d- -f1); props=""
  for f in $(grep -E '^\+\+\+ b/' $d/patch.diff | sed 's/^+++ b\///'); do props="$props ${MAP[$f]:-}"; done
  props=$(echo $props | tr ' ' '\n' | sort -u | grep -v "^$own$" | tr '\n' ' ')
  [ -z "$props" ] && continue
  echo "#### $(basename $d) -> $props"
  BENIGN_ONLY_EXTRA=1 BENIGN_SKIP_CTEST=1 nice -n 10 tools/benign_verify.sh $d $TIER $props 2>&1
done
